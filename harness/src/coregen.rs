//! Case generators for the `core` driver, one weighting ("mode") per property.  Every
//! case is reproducible from (mode, subseed): that pair is the replay line.
use crate::absframe::*;
use crate::core::{Term, World};
use crate::coqfmt::CaseSink;
use crate::rng::Rng;
use crate::Args;
use amiquip::verif::Wr;

const TAGS: [&str; 4] = ["a", "b", "ctag-3", ""];
const STRS: [&str; 5] = ["", "x", "amq.direct", "rk.1", "queue-with-a-longer-name"];

pub struct G {
    pub w: World,
    pub rng: Rng,
    /// (channel, tag) of consumers the generator believes exist
    pub consumers: Vec<(u16, String)>,
    pub mode: String,
    pub no_random_teardown: bool,
    pub uniq: u32,
}

fn s(rng: &mut Rng) -> String {
    if rng.chance(1, 40) {
        let n = *rng.pick(&[200usize, 255]);
        return "z".repeat(n);
    }
    if rng.chance(1, 25) {
        // long and not ASCII: a text built from it is cut at byte 255, inside a character
        // for some of the prefixes
        let ch = *rng.pick(&["é", "€", "😀", "ß"]);
        let prefix = "x".repeat(rng.below(4) as usize);
        let budget = rng.range(150, 255) as usize - prefix.len();
        return prefix + &ch.repeat(budget / ch.len());
    }
    rng.pick(&STRS).to_string()
}

fn body_of(rng: &mut Rng, len: usize) -> Vec<u8> {
    let b = rng.below(250) as u8;
    let mut v = vec![b; len];
    if len > 0 {
        v[0] = b.wrapping_add(1);
        let l = v.len();
        v[l - 1] = b.wrapping_add(2);
    }
    v
}

impl G {
    pub fn new(mode: &str, subseed: u64) -> G {
        let mut rng = Rng::new(subseed);
        let max: u16 = match rng.below(6) {
            0 => 1,
            1 => 2,
            2 | 3 => 4,
            4 => 0, // promoted to 65535 by set_channel_max? (0 = no limit)
            _ => 65535,
        };
        let max = if max == 0 { 3 } else { max };
        let max = if mode == "c10" { *rng.pick(&[65535u16, 65535, 65535, 65534, 4, 2]) } else { max };
        let bound = *rng.pick(&[1usize, 2, 3, 16]);
        G { w: World::new(max, bound), rng, consumers: vec![], mode: mode.to_string(), no_random_teardown: false, uniq: 0 }
    }

    pub fn open_ids(&self) -> Vec<u16> {
        self.w.open_slot_ids()
    }

    /// request + event + receive the handle
    pub fn open_channel(&mut self, id: Option<u16>) {
        self.w.cl_alloc_req(id);
        self.w.event_alloc();
        self.w.cl_recv(1);
    }

    pub fn some_open(&mut self) -> Option<u16> {
        let ids = self.open_ids();
        if ids.is_empty() {
            None
        } else {
            Some(*self.rng.pick(&ids))
        }
    }

    pub fn some_closed(&mut self) -> u16 {
        let ids = self.open_ids();
        for _ in 0..20 {
            let c = match self.rng.below(3) {
                0 => self.rng.range(1, 6) as u16,
                1 => self.w.max.wrapping_add(1).max(1),
                _ => self.rng.range(1, 65535) as u16,
            };
            if c != 0 && !ids.contains(&c) {
                return c;
            }
        }
        60000
    }

    /// a channel number: mostly open, sometimes 0, sometimes not open
    pub fn chan(&mut self, p0: u64, pclosed: u64) -> u16 {
        let r = self.rng.below(100);
        if r < p0 {
            0
        } else if r < p0 + pclosed {
            self.some_closed()
        } else {
            self.some_open().unwrap_or(0)
        }
    }

    pub fn tag(&mut self) -> String {
        self.rng.pick(&TAGS).to_string()
    }

    pub fn add_consumer(&mut self, ch: u16, tag: &str) {
        self.w.frame(&FR::Method(ch, SM::ConsumeOk(tag.to_string())));
        if let Some(q) = self.w.handle_q.get(&ch).cloned() {
            self.w.cl_recv(q);
        }
        if !self.w.errored {
            self.consumers.push((ch, tag.to_string()));
        }
    }

    /// frames of one message on `ch`: method, header, body parts (any partition)
    pub fn content(&mut self, ch: u16, kind: u8, tag: &str, body_len: usize, dtag: u64) -> Vec<FR> {
        let rng = &mut self.rng;
        let m = match kind {
            0 => SM::Deliver { tag: tag.to_string(), dtag, red: rng.boolean(), exch: s(rng), rk: s(rng) },
            1 => SM::Return { code: *rng.pick(&[312u16, 313, 0, 65535]), text: s(rng), exch: s(rng), rk: s(rng) },
            _ => SM::GetOk { dtag, red: rng.boolean(), exch: s(rng), rk: s(rng), count: rng.below(5) as u32 * 1000 },
        };
        let body = body_of(rng, body_len);
        let mut v = vec![FR::Method(ch, m), FR::Header(ch, body_len as u64, rng.below(N_PROPS as u64) as u8)];
        let mut pos = 0;
        while pos < body_len {
            if rng.chance(1, 8) {
                v.push(FR::Body(ch, vec![])); // empty body frames are legal
            }
            let n = match rng.below(4) {
                0 => 1,
                1 => body_len - pos,
                _ => rng.range(1, (body_len - pos) as u64) as usize,
            };
            v.push(FR::Body(ch, body[pos..pos + n].to_vec()));
            pos += n;
        }
        v
    }

    pub fn body_len(&mut self) -> usize {
        match self.rng.below(10) {
            0 | 1 => 0,
            2 => 1,
            3 => self.rng.range(2, 9) as usize,
            4 => *self.rng.pick(&[4088usize, 4096, 5000, 20000]),
            _ => self.rng.range(2, 300) as usize,
        }
    }

    /// any single frame of the dispatch alphabet
    pub fn any_frame(&mut self, p0: u64, pclosed: u64) -> FR {
        let ch = self.chan(p0, pclosed);
        let r = self.rng.below(40);
        let rng = &mut self.rng;
        let tag = rng.pick(&TAGS).to_string();
        let size_pool = [0u64, 1, 2, 5, 6, 1 << 31, (1 << 63) - 1, 1 << 63, u64::MAX, 100_000_000_000_000];
        match r {
            0 => FR::Method(ch, SM::ConnClose(*rng.pick(&[320u16, 541, 0]), s(rng))),
            1 => FR::Method(ch, SM::ConnCloseOk),
            2 => FR::Method(ch, SM::Blocked(s(rng))),
            3 => FR::Method(ch, SM::Unblocked),
            4 => FR::Method(ch, SM::ConnOther(rng.below(N_CONN_OTHER as u64) as u8)),
            5 | 6 => FR::Method(ch, SM::ChanClose(*rng.pick(&[404u16, 406, 0]), s(rng))),
            7 => FR::Method(ch, SM::ChanCloseOk),
            8 | 9 => FR::Method(ch, SM::ConsumeOk(tag)),
            10 => FR::Method(ch, SM::Cancel(tag, rng.boolean())),
            11 => FR::Method(ch, SM::CancelOk(tag)),
            12..=14 => FR::Method(ch, SM::Deliver { tag, dtag: rng.below(9), red: rng.boolean(), exch: s(rng), rk: s(rng) }),
            15 => FR::Method(ch, SM::Return { code: 312, text: s(rng), exch: s(rng), rk: s(rng) }),
            16 | 17 => FR::Method(ch, SM::GetOk { dtag: rng.below(9), red: false, exch: s(rng), rk: s(rng), count: 3 }),
            18 => FR::Method(ch, SM::GetEmpty),
            19 => FR::Method(ch, SM::Ack(rng.below(9), rng.boolean())),
            20 => FR::Method(ch, SM::Nack(rng.next() >> rng.below(64), rng.boolean())),
            21 | 22 => {
                let k = rng.below(GENERIC_KINDS as u64) as u8;
                FR::Method(ch, SM::Generic(k, s(rng), rng.below(3) as u32, (rng.next() >> 40) as u32))
            }
            23 => FR::Method(ch, SM::Unimpl(rng.below(N_UNIMPL as u64) as u8)),
            24 => FR::Method(ch, SM::Illegal(rng.below(N_ILLEGAL as u64) as u8, s(rng))),
            25..=30 => FR::Header(ch, *rng.pick(&size_pool), rng.below(N_PROPS as u64) as u8),
            31..=37 => {
                let n = *rng.pick(&[0usize, 1, 1, 2, 4, 5, 6, 7]);
                FR::Body(ch, body_of(rng, n))
            }
            38 => FR::Heartbeat(if rng.chance(1, 4) { ch } else { 0 }),
            _ => {
                if rng.chance(1, 3) {
                    FR::ProtoHeader
                } else {
                    FR::Heartbeat(0)
                }
            }
        }
    }

    /// feed frames: directly (one process call each) or as a read episode
    pub fn feed(&mut self, frames: Vec<FR>, term: Term) {
        let all_enc = frames.iter().all(|f| f.encodable());
        let direct = !all_enc || (matches!(term, Term::Block) && self.rng.chance(1, 3));
        if direct {
            for f in &frames {
                if self.w.errored || self.w.dead {
                    break;
                }
                self.w.frame(f);
            }
        } else {
            let wr = if self.mode != "c07" && self.rng.chance(1, 3) { Some(self.write_oracle()) } else { None };
            let mut r = self.rng.fork();
            self.w.stream(wr, Some((frames, term)), &mut r);
        }
    }

    pub fn write_oracle(&mut self) -> Vec<Wr> {
        let len = self.w.outbuf_len();
        let mut v = Vec::new();
        let mut left = len;
        let full = self.rng.chance(1, 2);
        for _ in 0..self.rng.range(0, 5) {
            if left == 0 {
                break;
            }
            let n = match self.rng.below(4) {
                0 => 1,
                1 => left,
                2 => left + 3, // more than offered: the transport takes what it gets
                _ => self.rng.range(1, left as u64) as usize,
            };
            v.push(Wr::Wrote(n));
            left -= n.min(left);
        }
        if left > 0 {
            if full {
                v.push(Wr::Wrote(left));
            } else if self.mode == "mix" && self.rng.chance(1, 8) {
                v.push(Wr::Err);
            } else {
                v.push(Wr::Block);
            }
        }
        v
    }

    pub fn client_send(&mut self, ch: u16) {
        let m = match self.rng.below(4) {
            0 => SM::Ack(1, false),
            1 => SM::Generic(8, "q".into(), 0, 0),
            2 => SM::Cancel("a".into(), false),
            _ => SM::Illegal(3, "ex".into()),
        };
        let bytes = self.w.method_bytes(ch, &m);
        self.w.cl_send_bytes(ch, bytes, false);
    }

    pub fn client_close(&mut self) {
        let bytes = self.w.method_bytes(0, &SM::ConnClose(200, "goodbye".into()));
        self.w.cl_send_bytes(0, bytes, true);
    }

    pub fn install_listener(&mut self, ch: u16, kind: u8) -> usize {
        let q = self.w.cl_new_q(kind);
        self.w.cl_send_listener(ch, kind, Some(q));
        q
    }

    pub fn recv_some(&mut self) {
        let qs = self.w.queue_ids();
        if !qs.is_empty() {
            let q = *self.rng.pick(&qs);
            self.w.cl_recv(q);
        }
    }

    /// the end of every case: if the thread failed it is torn down; everything still
    /// receivable is received so that the oracles see complete queues
    pub fn finish(&mut self) {
        if self.no_random_teardown {
            if self.w.errored {
                self.w.teardown();
            }
            self.w.drain_all();
            return;
        }
        if self.w.errored || self.rng.chance(1, 4) {
            self.w.teardown();
        }
        self.w.drain_all();
    }

    // ------------------------------------------------------------------ modes

    fn setup_channels(&mut self, lo: u64, hi: u64) {
        let k = self.rng.range(lo, hi);
        for _ in 0..k {
            let id = if self.rng.chance(1, 4) { Some(self.rng.range(1, 5) as u16) } else { None };
            self.open_channel(id);
        }
    }

    fn setup_consumers(&mut self, p: u64) {
        for ch in self.open_ids() {
            for t in 0..3 {
                if self.rng.chance(p, 100) {
                    self.add_consumer(ch, TAGS[t]);
                }
            }
        }
    }

    /// one arbitrary step of the steady state
    pub fn mix_step(&mut self, p0: u64, pclosed: u64) {
        match self.rng.below(30) {
            0..=11 => {
                let n = self.rng.range(1, 3);
                let fs: Vec<FR> = (0..n).map(|_| self.any_frame(p0, pclosed)).collect();
                self.feed(fs, Term::Block);
            }
            12 | 13 => {
                if let Some(ch) = self.some_open() {
                    let (k, t, l) = (self.rng.below(3) as u8, self.tag(), self.body_len().min(600));
                    let fs = self.content(ch, k, &t, l, 7);
                    self.feed(fs, Term::Block);
                }
            }
            14 | 15 => {
                let ch = self.chan(15, 10);
                self.client_send(ch);
                if self.rng.chance(3, 4) {
                    self.w.event_chan(ch);
                }
            }
            16 => {
                let ch = self.chan(10, 20);
                self.w.event_chan(ch);
            }
            17 => {
                let id = match self.rng.below(3) {
                    0 => None,
                    1 => Some(self.rng.range(0, 5) as u16),
                    _ => Some(self.some_closed()),
                };
                self.w.cl_alloc_req(id);
                if self.rng.chance(3, 4) {
                    self.w.event_alloc();
                    self.w.cl_recv(1);
                }
            }
            18 => {
                self.w.cl_set_blocked();
                if self.rng.chance(3, 4) {
                    self.w.event_set_blocked();
                }
            }
            19 => {
                if let Some(ch) = self.some_open() {
                    let kind = self.rng.below(2) as u8;
                    self.install_listener(ch, kind);
                    if self.rng.chance(3, 4) {
                        self.w.event_chan(ch);
                    }
                }
            }
            20..=23 => self.recv_some(),
            24 => {
                let qs = self.w.queue_ids();
                if qs.len() > 2 && self.rng.chance(1, 3) {
                    let q = *self.rng.pick(&qs[2..]);
                    self.w.cl_drop_rx(q);
                }
            }
            25 => {
                if self.rng.chance(1, 4) {
                    let ch = self.chan(10, 0);
                    self.w.cl_drop_handle(ch);
                }
            }
            26 => self.w.is_done(),
            27 if self.mode != "c07" => {
                let o = self.write_oracle();
                let mut r = self.rng.fork();
                self.w.stream(Some(o), None, &mut r);
            }
            28 => {
                if self.rng.chance(1, 3) {
                    self.client_close();
                    self.w.event_chan(0);
                }
            }
            _ => self.w.peek_out(),
        }
    }

    pub fn run_mode(&mut self) {
        let mode = self.mode.clone();
        match mode.as_str() {
            "c01" => self.mode_c01(),
            "c03" => self.mode_c03(),
            "c04" => self.mode_c04(),
            "c05" => self.mode_c05(),
            "c08" => self.mode_c08(),
            "c09" => self.mode_c09(),
            "c11" => self.mode_c11(),
            "c13" => self.mode_c13(),
            "c20" => self.mode_c20(),
            "c10" => self.mode_c10(),
            "c18" => self.mode_c18(),
            "c06" => self.mode_c06(),
            "c07" => {
                self.setup_channels(0, 3);
                self.setup_consumers(40);
                let n = self.rng.range(1, 14);
                // one case in six ends with a not-allowed method whose rendering is long and not
                // ASCII: the Close's reply text is cut at byte 255, for some prefixes inside a
                // character
                let long_text = self.rng.chance(1, 6);
                for i in 0..n {
                    if long_text && i + 1 == n && !(self.w.errored || self.w.dead) {
                        let ch = self.some_open().unwrap_or(1);
                        let c = *self.rng.pick(&["é", "€", "😀", "ß"]);
                        let prefix = "x".repeat(self.rng.below(5) as usize);
                        let name = prefix.clone() + &c.repeat((250 - prefix.len()) / c.len());
                        let k = *self.rng.pick(&[1u8, 2, 3, 9, 10, 13]);
                        self.feed(vec![FR::Method(ch, SM::Illegal(k, name))], Term::Block);
                        break;
                    }
                    if self.w.errored || self.w.dead {
                        break;
                    }
                    match self.rng.below(10) {
                        0..=6 => {
                            let k = self.rng.range(1, 4);
                            let fs: Vec<FR> = (0..k).map(|_| self.any_frame(12, 12)).collect();
                            self.feed(fs, Term::Block);
                        }
                        7 => {
                            if let Some(ch) = self.some_open() {
                                let (k, t, l) = (self.rng.below(3) as u8, self.tag(), self.body_len().min(400));
                                let mut fs = self.content(ch, k, &t, l, 3);
                                // maybe cut it short / overrun it
                                match self.rng.below(7) {
                                    0 => {
                                        fs.pop();
                                    }
                                    1 => fs.push(FR::Body(ch, vec![1])),
                                    2 | 3 => {
                                        // the last body frame carries more bytes than announced
                                        let extra = self.rng.range(1, 3) as usize;
                                        if let Some(FR::Body(_, b)) = fs.last_mut() {
                                            b.extend(std::iter::repeat(9u8).take(extra));
                                        }
                                    }
                                    4 => {
                                        // the header announces less than what follows
                                        if l > 0 {
                                            let less = self.rng.range(1, l.min(3) as u64);
                                            if let FR::Header(_, size, _) = &mut fs[1] {
                                                *size -= less;
                                            }
                                        }
                                    }
                                    _ => {}
                                }
                                self.feed(fs, Term::Block);
                            }
                        }
                        8 => self.recv_some(),
                        _ => self.mix_step(12, 12),
                    }
                }
                if self.w.phase() == 2 || self.w.phase() == 1 {
                    self.w.peek_out();
                    self.w.is_done();
                }
            }
            _ => {
                self.setup_channels(0, 3);
                self.setup_consumers(30);
                let n = self.rng.range(1, 25);
                for _ in 0..n {
                    if self.w.errored || self.w.dead {
                        break;
                    }
                    self.mix_step(12, 10);
                }
            }
        }
        self.finish();
    }


    // ------------------------------------------------------------ more modes

    fn uniq_tag(&mut self) -> String {
        self.uniq += 1;
        format!("t{}", self.uniq)
    }

    fn recv_reply(&mut self, ch: u16) {
        if ch == 0 {
            self.w.cl_recv(0);
        } else if let Some(q) = self.w.handle_q.get(&ch).cloned() {
            self.w.cl_recv(q);
        }
    }

    fn random_reply(&mut self, ch: u16) -> FR {
        let rng = &mut self.rng;
        let k = rng.below(GENERIC_KINDS as u64) as u8;
        FR::Method(ch, SM::Generic(k, s(rng), (rng.next() >> rng.below(40)) as u32, rng.below(1000) as u32))
    }

    /// C01 at the thread level: whole buffers from several mailboxes, any event order, writes
    /// fragmented at every offset
    fn mode_c01(&mut self) {
        self.no_random_teardown = true;
        self.setup_channels(1, 4);
        let ids = self.open_ids();
        if ids.is_empty() {
            return;
        }
        let n = self.rng.range(3, 25);
        for _ in 0..n {
            if self.w.errored || self.w.dead {
                return;
            }
            match self.rng.below(10) {
                0..=3 => {
                    let ch = *self.rng.pick(&ids);
                    let k = self.rng.range(1, 3);
                    for _ in 0..k {
                        self.client_send(ch);
                    }
                }
                4 | 5 => {
                    let ch = *self.rng.pick(&ids);
                    self.w.event_chan(ch);
                }
                6..=8 => {
                    // a write that takes the buffer in pieces, blocking anywhere
                    let len = self.w.outbuf_len();
                    let mut o = Vec::new();
                    let mut left = len;
                    while left > 0 && o.len() < 6 {
                        let k = match self.rng.below(4) { 0 => 1, 1 => left, _ => self.rng.range(1, left as u64) as usize };
                        o.push(Wr::Wrote(k));
                        left -= k;
                        if self.rng.chance(1, 3) { break; }
                    }
                    if left > 0 { o.push(Wr::Block); }
                    let mut r = self.rng.fork();
                    self.w.stream(Some(o), None, &mut r);
                }
                _ => self.w.peek_out(),
            }
        }
        for &ch in &ids {
            self.w.event_chan(ch);
        }
        if self.rng.chance(1, 3) {
            // the server closes while a frame is half written: what was queued must still go
            // out whole, then CloseOk
            let len = self.w.outbuf_len();
            if len > 2 {
                let k = self.rng.range(1, len as u64 - 1) as usize;
                let mut r = self.rng.fork();
                self.w.stream(Some(vec![Wr::Wrote(k), Wr::Block]), None, &mut r);
            }
            self.feed_stream(vec![FR::Method(0, SM::ConnClose(320, "shutdown".into()))], Term::Block);
        }
        self.flush_all();
        self.w.peek_out();
    }

    /// C04: replies routed to the channel they arrive on, in order, with their values
    fn mode_c04(&mut self) {
        self.no_random_teardown = true;
        self.setup_channels(2, 5);
        let ids = self.open_ids();
        if ids.is_empty() {
            return;
        }
        let mut outstanding: std::collections::HashMap<u16, u32> = Default::default();
        let n = self.rng.range(4, 30);
        let mut episode: Vec<FR> = vec![];
        for _ in 0..n {
            let ch = *self.rng.pick(&ids);
            let o = outstanding.entry(ch).or_insert(0);
            if *o >= 2 {
                // the reply queue holds two: the caller takes one first
                let ep = std::mem::take(&mut episode);
                if !ep.is_empty() {
                    self.feed(ep, Term::Block);
                }
                self.recv_reply(ch);
                *outstanding.get_mut(&ch).unwrap() -= 1;
                continue;
            }
            *o += 1;
            let f = match self.rng.below(8) {
                0 => FR::Method(ch, SM::GetEmpty),
                1 => {
                    let t = self.uniq_tag();
                    FR::Method(ch, SM::ConsumeOk(t))
                }
                2 => FR::Method(ch, SM::CancelOk("nobody".into())),
                _ => self.random_reply(ch),
            };
            episode.push(f);
            if self.rng.chance(1, 3) {
                let ep = std::mem::take(&mut episode);
                self.feed(ep, Term::Block);
            }
            if self.rng.chance(1, 3) {
                let ch2 = *self.rng.pick(&ids);
                if outstanding.get(&ch2).cloned().unwrap_or(0) > 0 && episode.is_empty() {
                    self.recv_reply(ch2);
                    *outstanding.get_mut(&ch2).unwrap() -= 1;
                }
            }
            if self.w.errored || self.w.dead {
                return;
            }
        }
        if !episode.is_empty() {
            self.feed(episode, Term::Block);
        }
    }

    fn some_steady_traffic(&mut self, k: u64) {
        for _ in 0..k {
            if self.w.errored || self.w.dead {
                return;
            }
            match self.rng.below(6) {
                0 | 1 => {
                    if let Some(ch) = self.some_open() {
                        let cons: Vec<String> =
                            self.consumers.iter().filter(|(c, _)| *c == ch).map(|(_, t)| t.clone()).collect();
                        if !cons.is_empty() {
                            let t = self.rng.pick(&cons).clone();
                            let l = self.body_len().min(300);
                            let fs = self.content(ch, 0, &t, l, 5);
                            self.feed(fs, Term::Block);
                        }
                    }
                }
                2 => {
                    if let Some(ch) = self.some_open() {
                        self.client_send(ch);
                        self.w.event_chan(ch);
                    }
                }
                3 => {
                    if let Some(ch) = self.some_open() {
                        let f = self.random_reply(ch);
                        self.feed(vec![f], Term::Block);
                        self.recv_reply(ch);
                    }
                }
                4 => {
                    if self.mode != "c08" || self.w.phase() == 0 {
                        let o = self.write_oracle();
                        if !o.iter().any(|w| matches!(w, Wr::Err)) {
                            let mut r = self.rng.fork();
                            self.w.stream(Some(o), None, &mut r);
                        }
                    }
                }
                _ => self.recv_some(),
            }
        }
    }

    fn unique_consumers(&mut self, p: u64) {
        for ch in self.open_ids() {
            for _ in 0..3 {
                if self.rng.chance(p, 100) {
                    let t = self.uniq_tag();
                    self.add_consumer(ch, &t);
                }
            }
        }
    }

    /// C05: a fatal input at a random point; afterwards everything is released
    fn mode_c05(&mut self) {
        self.no_random_teardown = true;
        self.setup_channels(0, 3);
        self.unique_consumers(50);
        for ch in self.open_ids() {
            if self.rng.chance(1, 3) {
                let k = self.rng.below(2) as u8;
                self.install_listener(ch, k);
                self.w.event_chan(ch);
            }
        }
        if self.rng.chance(1, 3) {
            self.w.cl_set_blocked();
            self.w.event_set_blocked();
        }
        let k = self.rng.range(0, 6);
        self.some_steady_traffic(k);
        if self.w.errored || self.w.dead {
            return;
        }
        // content half received on some channel
        let mut prefix: Vec<FR> = vec![];
        if let Some(ch) = self.some_open() {
            if self.rng.chance(1, 2) {
                let t = self.tag();
                let mut fs = self.content(ch, 2, &t, 50, 1);
                fs.truncate(self.rng.range(1, fs.len() as u64 - 1) as usize);
                prefix = fs;
            }
        }
        // one case in ten: the fatal event ends a backlog of well over 128 KiB that arrives in the
        // same readiness episode (an edge-triggered read has to go on until it would block)
        if self.rng.chance(1, 10) {
            if let Some(ch) = self.some_open() {
                let mut big: Vec<FR> = Vec::new();
                let n = self.rng.range(36, 60);
                for i in 0..n {
                    let len = self.rng.range(3000, 5000) as usize;
                    big.extend(self.content(ch, 1, "", len, i));
                }
                big.extend(prefix);
                prefix = big;
            }
        }
        // a client request still in a mailbox
        if let Some(ch) = self.some_open() {
            if self.rng.chance(1, 2) {
                self.client_send(ch);
            }
        }
        // the client's own close may be in flight (sent, not yet answered)
        if self.rng.chance(1, 4) {
            self.client_close();
            self.w.event_chan(0);
            if self.rng.boolean() {
                self.flush_all();
            }
        }
        // the server goes silent (heartbeats enabled): in one case of twelve the fatal event is the
        // expiry of the receive timer - also while the client's own close is in flight
        if self.rng.chance(1, 12) {
            if !prefix.is_empty() {
                self.feed_stream(prefix, Term::Block);
            }
            self.w.event_heartbeat_missed();
            self.w.teardown();
            return;
        }
        match self.rng.below(7) {
            0 => self.feed_stream(prefix, Term::Eof),
            1 => self.feed_stream(prefix, Term::IoErr),
            2 => self.feed_stream(prefix, Term::Malformed),
            3 => {
                // write error
                let mut o = vec![];
                if self.w.outbuf_len() == 0 {
                    if let Some(ch) = self.some_open() {
                        self.client_send(ch);
                        self.w.event_chan(ch);
                    }
                }
                if self.rng.boolean() && self.w.outbuf_len() > 1 {
                    o.push(Wr::Wrote(1));
                }
                o.push(Wr::Err);
                let mut r = self.rng.fork();
                self.w.stream(Some(o), None, &mut r);
            }
            4 => {
                prefix.push(FR::Method(0, SM::ConnClose(320, "CONNECTION_FORCED - bye".into())));
                self.feed_stream(prefix, Term::Block);
                self.flush_all();
                self.w.is_done();
            }
            5 => {
                let f = if self.rng.boolean() {
                    FR::Method(0, SM::ConnOther(1))
                } else {
                    FR::Method(self.some_open().unwrap_or(1), SM::Unimpl(1))
                };
                prefix.push(f);
                // more frames in flight behind the offending one, in the same read: they are
                // ignored, the root cause stays ClientException
                if self.rng.boolean() {
                    prefix.push(FR::Heartbeat(0));
                    if let Some(ch) = self.some_open() {
                        let r = self.random_reply(ch);
                        prefix.push(r);
                    }
                }
                self.feed_stream(prefix, Term::Block);
                self.flush_all();
                self.w.is_done();
            }
            _ => {
                // a frame for a channel that is not open
                let ch = self.some_closed();
                prefix.push(FR::Method(ch, SM::GetEmpty));
                self.feed_stream(prefix, Term::Block);
            }
        }
        self.w.teardown();
    }

    pub fn feed_stream(&mut self, frames: Vec<FR>, term: Term) {
        let mut r = self.rng.fork();
        self.w.stream(None, Some((frames, term)), &mut r);
    }

    pub fn flush_all(&mut self) {
        for _ in 0..4 {
            let l = self.w.outbuf_len();
            if l == 0 || self.w.errored || self.w.dead {
                return;
            }
            let mut r = self.rng.fork();
            let o = if self.rng.boolean() { vec![Wr::Wrote(l)] } else { vec![Wr::Wrote(l / 2 + 1), Wr::Wrote(l)] };
            self.w.stream(Some(o), None, &mut r);
        }
    }

    /// C06 at the level of the I/O thread (Inner::read_from_stream + FrameBuffer): a long run of
    /// frames arrives either in ONE readiness episode (tens to hundreds of KiB before the socket
    /// would block) or in several; what is delivered must be the same
    fn mode_c06(&mut self) {
        self.no_random_teardown = true;
        self.setup_channels(1, 2);
        self.unique_consumers(100);
        let ch = match self.some_open() {
            Some(c) => c,
            None => return,
        };
        let tag = match self.consumers.iter().find(|(c, _)| *c == ch) {
            Some((_, t)) => t.clone(),
            None => return,
        };
        let n = self.rng.range(12, 70);
        let mut fs: Vec<FR> = Vec::new();
        for i in 0..n {
            let len = *self.rng.pick(&[0usize, 1, 700, 3000, 4088, 5000]);
            fs.extend(self.content(ch, 0, &tag, len, i + 1));
        }
        match self.rng.below(5) {
            0 => self.feed_stream(fs, Term::Block),
            1 => {
                let cut = self.rng.range(1, fs.len() as u64 - 1) as usize;
                let rest = fs.split_off(cut);
                self.feed_stream(fs, Term::Block);
                self.feed_stream(rest, Term::Block);
            }
            2 => {
                // the stream ends (or breaks, or turns to garbage) in the same wake-up, right
                // behind the last complete frame: every frame before it is still acted on
                let t = self.rng.pick(&[Term::Eof, Term::IoErr, Term::Malformed]).clone();
                self.feed_stream(fs, t);
            }
            3 => {
                let cut = self.rng.range(1, fs.len() as u64 - 1) as usize;
                let rest = fs.split_off(cut);
                self.feed_stream(fs, Term::Block);
                let t = self.rng.pick(&[Term::Eof, Term::IoErr, Term::Malformed]).clone();
                self.feed_stream(rest, t);
            }
            _ => {
                // ... and the connection's end right behind it
                fs.push(FR::Method(0, SM::ConnClose(320, "bye".into())));
                self.feed_stream(fs, Term::Block);
            }
        }
        for _ in 0..(n + 2) {
            self.recv_some();
        }
    }

    /// C18 at the level of one channel event: handle_channel_readable against a small
    /// high-water mark - how much of a mailbox one wake-up takes, what stays, when a re-poll is
    /// owed (also for a wake-up of a slot that is gone)
    fn mode_c18(&mut self) {
        self.no_random_teardown = true;
        self.setup_channels(1, 3);
        let marks = [0usize, 12, 13, 30, 100, 400, 16 << 20];
        let h = *self.rng.pick(&marks);
        self.w.set_high(h);
        let n = self.rng.range(6, 26);
        for _ in 0..n {
            if self.w.errored || self.w.dead {
                break;
            }
            match self.rng.below(9) {
                0..=2 => {
                    if let Some(ch) = self.some_open() {
                        for _ in 0..self.rng.range(1, 3) {
                            self.client_send(ch);
                        }
                    }
                }
                3 | 4 => {
                    if let Some(ch) = self.some_open() {
                        self.w.event_chan(ch);
                        self.w.need();
                    }
                }
                5 => {
                    let l = self.w.outbuf_len();
                    if l > 0 {
                        let k = self.rng.range(1, l as u64) as usize;
                        let mut r = self.rng.fork();
                        self.w.stream(Some(vec![Wr::Wrote(k), Wr::Block]), None, &mut r);
                    }
                }
                6 => {
                    let h = *self.rng.pick(&marks);
                    self.w.set_high(h);
                }
                7 => {
                    let c = self.some_closed();
                    self.w.event_chan(c);
                    self.w.need();
                }
                _ => self.w.peek_out(),
            }
        }
        self.w.peek_out();
    }

    /// C10 at the level of the I/O thread: ids at the boundaries of the range are opened,
    /// used like any other (requests, wake-ups, replies), closed by the server and re-opened
    fn mode_c10(&mut self) {
        self.no_random_teardown = true;
        let max = self.w.max;
        let cands: Vec<u16> = [1u16, 2, 255, 256, 32767, 32768, 65534, 65535, max, max.saturating_sub(1), max.wrapping_add(1), 0]
            .iter()
            .copied()
            .collect();
        if max <= 4 && self.rng.chance(1, 2) {
            // the ids run out, the server closes one channel, that very id is re-opened by
            // name - and then asked for automatically again, twice
            for _ in 0..max {
                self.open_channel(None);
            }
            let victim = self.rng.range(1, max as u64) as u16;
            self.feed(vec![FR::Method(victim, SM::ChanClose(404, "gone".into()))], Term::Block);
            self.recv_some();
            self.open_channel(Some(victim));
            self.open_channel(None);
            self.open_channel(None);
            if let Some(ch) = self.some_open() {
                self.client_send(ch);
                self.w.event_chan(ch);
            }
            return;
        }
        let k = self.rng.range(1, 4);
        for _ in 0..k {
            let id = *self.rng.pick(&cands);
            self.open_channel(Some(id));
        }
        self.open_channel(None);
        let n = self.rng.range(4, 14);
        for _ in 0..n {
            if self.w.errored || self.w.dead {
                break;
            }
            match self.rng.below(8) {
                0 => {
                    let id = *self.rng.pick(&cands);
                    self.open_channel(Some(id));
                }
                6 | 7 => self.open_channel(None),
                1 | 2 => {
                    if let Some(ch) = self.some_open() {
                        self.client_send(ch);
                        self.w.event_chan(ch);
                    }
                }
                3 => {
                    if let Some(ch) = self.some_open() {
                        let f = self.random_reply(ch);
                        self.feed(vec![f], Term::Block);
                    }
                }
                4 => {
                    if let Some(ch) = self.some_open() {
                        self.feed(vec![FR::Method(ch, SM::ChanClose(404, "gone".into()))], Term::Block);
                    }
                }
                _ => self.recv_some(),
            }
        }
    }

    /// C08: the close handshake from either side
    fn mode_c08(&mut self) {
        self.no_random_teardown = true;
        self.setup_channels(0, 4);
        self.unique_consumers(40);
        let k = self.rng.range(0, 5);
        self.some_steady_traffic(k);
        if self.w.errored || self.w.dead {
            return;
        }
        // data still queued behind a stalled transport
        if self.rng.chance(1, 2) {
            if let Some(ch) = self.some_open() {
                self.client_send(ch);
                self.w.event_chan(ch);
            }
        }
        let client_side = self.rng.chance(3, 5);
        if client_side {
            // racing requests before the close point
            let racer = self.some_open();
            if let Some(ch) = racer {
                if self.rng.boolean() {
                    self.client_send(ch);
                }
            }
            self.w.peek_out();
            self.client_close();
            let order = self.rng.below(3);
            if order == 0 {
                if let Some(ch) = racer {
                    self.w.event_chan(ch);
                }
            }
            self.w.event_chan(0);
            self.w.peek_out();
            // submitted after the close point: must never be written
            if let Some(ch) = self.some_open() {
                self.client_send(ch);
                self.w.event_chan(ch);
            }
            if order == 1 {
                if let Some(ch) = racer {
                    self.w.event_chan(ch);
                }
            }
            // frames still arriving
            if self.rng.chance(1, 2) {
                if let Some(ch) = self.some_open() {
                    let f = self.random_reply(ch);
                    self.feed(vec![f], Term::Block);
                }
            }
            if self.rng.chance(2, 3) {
                self.flush_all();
                // ... and something submitted once the Close is on the wire
                if let Some(ch) = self.some_open() {
                    self.client_send(ch);
                    self.w.event_chan(ch);
                    self.w.peek_out();
                    self.flush_all();
                }
            }
            self.w.peek_out();
            self.w.is_done();
            if self.w.errored || self.w.dead {
                return;
            }
            // the server is slow to answer: the client's own heartbeat timer expires inside the
            // close handshake - nothing may follow the Close
            let mut tx_fired = false;
            if self.rng.chance(1, 10) {
                tx_fired = true;
                self.flush_all();
                self.w.event_heartbeat_tx();
                self.w.peek_out();
                self.flush_all();
                self.w.is_done();
            }
            // the server never answers the Close and stays silent: with heartbeats on, the receive
            // timer ends the wait
            if !tx_fired && self.rng.chance(1, 14) {
                self.w.event_heartbeat_missed();
                self.w.teardown();
                return;
            }
            let term = match self.rng.below(6) {
                0 | 1 => Term::Eof, // the server drops the socket right after CloseOk
                2 => Term::IoErr,   // ... abortively (reset seen in the same read)
                3 => Term::Malformed, // ... or trailing bytes follow
                _ => Term::Block,
            };
            let eof_later = matches!(term, Term::Block) && self.rng.boolean();
            self.feed_stream(vec![FR::Method(0, SM::ConnCloseOk)], term);
            self.w.is_done();
            if eof_later && !self.w.errored {
                // the real loop has ended by now; nothing more is read
            }
            self.w.peek_out();
        } else {
            let code = *self.rng.pick(&[320u16, 200, 541, 0, 65535]);
            let text = s(&mut self.rng);
            self.w.peek_out();
            let mut fs = vec![FR::Method(0, SM::ConnClose(code, text))];
            if self.rng.chance(1, 3) {
                // something after the Close in the same read
                let ch = self.some_open().unwrap_or(1);
                fs.push(FR::Method(ch, SM::GetEmpty));
            }
            self.feed_stream(fs, Term::Block);
            self.w.peek_out();
            self.w.is_done();
            // the transport is slow to take the CloseOk and the heartbeat timer expires meanwhile:
            // CloseOk stays the last frame
            if self.rng.chance(1, 10) {
                if self.rng.boolean() {
                    self.flush_all();
                }
                self.w.event_heartbeat_tx();
                self.w.peek_out();
            }
            // submitted after the close point
            if let Some(&ch) = self.w.handle_q.keys().next() {
                self.client_send(ch);
                self.w.event_chan(ch);
            }
            self.client_close();
            self.w.event_chan(0);
            self.flush_all();
            self.w.peek_out();
            self.w.is_done();
        }
        self.w.teardown();
    }

    /// C09: the server closes one channel; the others go on; the id is reusable
    fn mode_c09(&mut self) {
        self.no_random_teardown = true;
        self.setup_channels(2, 4);
        self.unique_consumers(40);
        let ids = self.open_ids();
        if ids.is_empty() {
            return;
        }
        let victim = *self.rng.pick(&ids);
        let k = self.rng.range(0, 4);
        self.some_steady_traffic(k);
        if self.w.errored || self.w.dead {
            return;
        }
        // state of the victim: call in flight / content half received / wake-up pending
        let mut pre: Vec<FR> = vec![];
        match self.rng.below(4) {
            0 => {
                self.client_send(victim);
                if self.rng.boolean() {
                    self.w.event_chan(victim);
                }
            }
            1 => {
                let t = self.tag();
                let mut fs = self.content(victim, 2, &t, 40, 1);
                fs.truncate(self.rng.range(1, fs.len() as u64 - 1) as usize);
                pre = fs;
            }
            _ => {}
        }
        // other channels' frames around the close, in one read or several
        let others: Vec<u16> = ids.iter().cloned().filter(|c| *c != victim).collect();
        let mut fs = pre;
        if let Some(&o) = others.first() {
            if self.rng.boolean() {
                fs.push(self.random_reply(o));
            }
        }
        let code = *self.rng.pick(&[404u16, 406, 403, 0]);
        let text = s(&mut self.rng);
        self.w.peek_out();
        fs.push(FR::Method(victim, SM::ChanClose(code, text)));
        if let Some(&o) = others.last() {
            if self.rng.boolean() {
                fs.push(self.random_reply(o));
            }
        }
        self.feed(fs, Term::Block);
        self.w.peek_out();
        if self.w.errored || self.w.dead {
            return;
        }
        // a wake-up for the closed channel that was already pending
        if self.rng.boolean() {
            self.w.event_chan(victim);
        }
        // the old handle keeps failing
        self.recv_reply(victim);
        self.client_send(victim);
        self.recv_reply(victim);
        for &o in &others {
            self.recv_reply(o);
        }
        // the others keep working
        for &o in &others {
            let f = self.random_reply(o);
            self.feed(vec![f], Term::Block);
            self.recv_reply(o);
            if self.w.errored {
                return;
            }
        }
        // a late CloseOk from the server for a close the client had in flight
        if self.rng.chance(1, 3) {
            self.feed(vec![FR::Method(victim, SM::ChanCloseOk)], Term::Block);
        }
        // the id is available again
        if self.rng.chance(2, 3) {
            self.w.cl_drop_handle(victim);
            self.open_channel(Some(victim));
            if self.open_ids().contains(&victim) {
                let f = self.random_reply(victim);
                self.feed(vec![f], Term::Block);
                self.recv_reply(victim);
            }
        }
    }

    /// C11: consumer life cycles
    fn mode_c11(&mut self) {
        self.no_random_teardown = true;
        self.setup_channels(1, 3);
        self.unique_consumers(70);
        let n = self.rng.range(1, 12);
        for _ in 0..n {
            if self.w.errored || self.w.dead || self.w.phase() != 0 {
                break;
            }
            let live: Vec<(u16, String)> = self.consumers.clone();
            match self.rng.below(14) {
                0..=4 => {
                    if !live.is_empty() {
                        let (ch, t) = self.rng.pick(&live).clone();
                        let l = self.body_len().min(200);
                        let fs = self.content(ch, 0, &t, l, 9);
                        self.feed(fs, Term::Block);
                    }
                }
                5 | 6 => {
                    // client cancel: request, deliveries in between, confirmation
                    if !live.is_empty() {
                        let (ch, t) = self.rng.pick(&live).clone();
                        let bytes = self.w.method_bytes(ch, &SM::Cancel(t.clone(), false));
                        self.w.cl_send_bytes(ch, bytes, false);
                        self.w.event_chan(ch);
                        if self.rng.boolean() {
                            let fs = self.content(ch, 0, &t, 3, 10);
                            self.feed(fs, Term::Block);
                        }
                        self.feed(vec![FR::Method(ch, SM::CancelOk(t.clone()))], Term::Block);
                        self.recv_reply(ch);
                        self.consumers.retain(|x| *x != (ch, t.clone()));
                    }
                }
                7 | 8 => {
                    if !live.is_empty() {
                        let (ch, t) = self.rng.pick(&live).clone();
                        let nw = self.rng.boolean();
                        self.feed(vec![FR::Method(ch, SM::Cancel(t.clone(), nw))], Term::Block);
                        self.consumers.retain(|x| *x != (ch, t.clone()));
                        // the client cancels it anyway (dropping the Consumer does)
                        if self.rng.chance(1, 3) {
                            self.feed(vec![FR::Method(ch, SM::CancelOk(t.clone()))], Term::Block);
                            self.recv_reply(ch);
                        }
                    }
                }
                9 => {
                    if let Some(ch) = self.some_open() {
                        let (code, text) = (*self.rng.pick(&[404u16, 406]), s(&mut self.rng));
                        self.feed(vec![FR::Method(ch, SM::ChanClose(code, text))], Term::Block);
                        self.consumers.retain(|x| x.0 != ch);
                    }
                }
                10 => {
                    if let Some(ch) = self.some_open() {
                        self.feed(vec![FR::Method(ch, SM::ChanCloseOk)], Term::Block);
                        self.consumers.retain(|x| x.0 != ch);
                    }
                }
                11 => {
                    if self.rng.chance(1, 2) {
                        let (code, text) = (320u16, s(&mut self.rng));
                        self.feed(vec![FR::Method(0, SM::ConnClose(code, text))], Term::Block);
                    }
                }
                12 => {
                    if self.rng.chance(1, 2) {
                        self.feed(vec![FR::Method(0, SM::ConnCloseOk)], Term::Block);
                    }
                }
                _ => self.recv_some(),
            }
        }
    }

    /// C13: confirms, returns, blocked notices and their listeners
    fn mode_c13(&mut self) {
        self.no_random_teardown = true;
        self.setup_channels(1, 3);
        let n = self.rng.range(2, 25);
        let mut dtag = 1u64;
        for _ in 0..n {
            if self.w.errored || self.w.dead {
                break;
            }
            match self.rng.below(16) {
                0..=3 => {
                    if let Some(ch) = self.some_open() {
                        let m = if self.rng.boolean() { SM::Ack(dtag, self.rng.boolean()) } else { SM::Nack(dtag, self.rng.boolean()) };
                        dtag += self.rng.range(0, 3);
                        self.feed(vec![FR::Method(ch, m)], Term::Block);
                    }
                }
                4 => {
                    if let Some(ch) = self.some_open() {
                        let l = self.body_len().min(100);
                        let fs = self.content(ch, 1, "", l, 0);
                        self.feed(fs, Term::Block);
                    }
                }
                5 => {
                    // a listener is installed (or replaced, or cleared) while a returned message is
                    // half received: the message still completes and goes to whoever listens then
                    if let Some(ch) = self.some_open() {
                        let l = self.body_len().min(100).max(2);
                        let mut fs = self.content(ch, 1, "", l, 0);
                        let cut = self.rng.range(1, fs.len() as u64 - 1) as usize;
                        let rest = fs.split_off(cut);
                        self.feed(fs, Term::Block);
                        match self.rng.below(3) {
                            0 => self.w.cl_send_listener(ch, 0, None),
                            _ => {
                                let kind = self.rng.below(2) as u8;
                                self.install_listener(ch, kind);
                            }
                        }
                        self.w.event_chan(ch);
                        self.feed(rest, Term::Block);
                    }
                }
                6 | 7 => {
                    let f = if self.rng.boolean() { FR::Method(0, SM::Blocked(s(&mut self.rng))) } else { FR::Method(0, SM::Unblocked) };
                    self.feed(vec![f], Term::Block);
                }
                8..=10 => {
                    if let Some(ch) = self.some_open() {
                        let kind = self.rng.below(2) as u8;
                        self.install_listener(ch, kind);
                        self.w.event_chan(ch);
                    }
                }
                11 => {
                    self.w.cl_set_blocked();
                    self.w.event_set_blocked();
                }
                12 => {
                    let ls = self.w.listener_qs.clone();
                    if !ls.is_empty() {
                        let (q, _) = *self.rng.pick(&ls);
                        self.w.cl_drop_rx(q);
                    }
                }
                13 => {
                    // clear a listener
                    if let Some(ch) = self.some_open() {
                        let kind = self.rng.below(2) as u8;
                        self.w.cl_send_listener(ch, kind, None);
                        self.w.event_chan(ch);
                    }
                }
                _ => {
                    let ls = self.w.listener_qs.clone();
                    if !ls.is_empty() {
                        let (q, _) = *self.rng.pick(&ls);
                        self.w.cl_recv(q);
                    }
                }
            }
        }
    }

    /// C20: closes and requests in one batch, in every order
    fn mode_c20(&mut self) {
        self.no_random_teardown = true;
        self.setup_channels(1, 3);
        self.unique_consumers(30);
        let ids = self.open_ids();
        if ids.is_empty() {
            return;
        }
        let victim = *self.rng.pick(&ids);
        let other = ids.iter().cloned().find(|c| *c != victim);
        // what is pending when the I/O thread wakes up
        #[derive(Clone, Copy, PartialEq)]
        enum Ev {
            ConnClose,
            ChanClose,
            Exception,
            Alloc,
            SetBlocked,
            Ch0Close,
            OnVictim,
            OnOther,
        }
        let mut pool = vec![Ev::Alloc, Ev::SetBlocked, Ev::Ch0Close, Ev::OnVictim, Ev::OnOther];
        self.rng.shuffle(&mut pool);
        let closer = *self.rng.pick(&[Ev::ConnClose, Ev::ConnClose, Ev::ChanClose, Ev::Exception]);
        let k = self.rng.range(1, 3) as usize;
        let mut batch: Vec<Ev> = pool[..k].to_vec();
        batch.push(closer);
        if self.rng.chance(1, 4) {
            batch.push(Ev::ChanClose);
        }
        self.rng.shuffle(&mut batch);
        // client side: make the requests pending (no event handled yet)
        for e in &batch {
            match e {
                Ev::Alloc => self.w.cl_alloc_req(if self.rng.boolean() { None } else { Some(victim) }),
                Ev::SetBlocked => {
                    self.w.cl_set_blocked();
                }
                Ev::Ch0Close => self.client_close(),
                Ev::OnVictim => self.client_send(victim),
                Ev::OnOther => {
                    if let Some(o) = other {
                        self.client_send(o)
                    }
                }
                _ => {}
            }
        }
        // the batch, in its order
        let mut chan_closed = false;
        for e in &batch {
            if self.w.errored || self.w.dead {
                break;
            }
            match e {
                Ev::ConnClose => self.feed_stream(vec![FR::Method(0, SM::ConnClose(320, "forced".into()))], Term::Block),
                Ev::ChanClose => {
                    if !chan_closed {
                        self.feed_stream(vec![FR::Method(victim, SM::ChanClose(406, "precondition".into()))], Term::Block);
                        chan_closed = true;
                    }
                }
                Ev::Exception => self.feed_stream(vec![FR::Method(victim, SM::Unimpl(2))], Term::Block),
                Ev::Alloc => self.w.event_alloc(),
                Ev::SetBlocked => self.w.event_set_blocked(),
                Ev::Ch0Close => self.w.event_chan(0),
                Ev::OnVictim => self.w.event_chan(victim),
                Ev::OnOther => {
                    if let Some(o) = other {
                        self.w.event_chan(o)
                    }
                }
            }
        }
        // the client's own Channel.Close of the victim crossed the server's: the server's
        // CloseOk arrives for a slot that is gone - and the other channel goes on working
        if chan_closed && !(self.w.errored || self.w.dead) && self.rng.chance(1, 2) {
            self.feed_stream(vec![FR::Method(victim, SM::ChanCloseOk)], Term::Block);
            if let Some(o) = other {
                if !(self.w.errored || self.w.dead) && self.w.phase() == 0 {
                    let f = self.random_reply(o);
                    self.feed(vec![f], Term::Block);
                    self.recv_some();
                }
            }
        }
        self.w.is_done();
        self.flush_all();
        self.w.is_done();
        self.w.peek_out();
        self.w.cl_recv(1);
        self.w.teardown();
    }

    /// valid server histories: messages rendered with any partition, channels
    /// interleaved, the stream cut anywhere
    fn mode_c03(&mut self) {
        self.setup_channels(1, 4);
        self.setup_consumers(60);
        // return listeners on some channels
        for ch in self.open_ids() {
            if self.rng.chance(1, 2) {
                self.install_listener(ch, 0);
                self.w.event_chan(ch);
            }
        }
        if self.w.errored {
            return;
        }
        // per channel: a list of messages, each a list of frames; gets are followed by a
        // barrier so that the bounded reply queue is received from in time
        let ids = self.open_ids();
        let mut per_chan: Vec<Vec<Vec<FR>>> = Vec::new();
        let mut dtag = 1;
        for &ch in &ids {
            let mut msgs = Vec::new();
            let cons: Vec<String> = self.consumers.iter().filter(|(c, _)| *c == ch).map(|(_, t)| t.clone()).collect();
            for _ in 0..self.rng.range(0, 4) {
                let kind = match self.rng.below(5) {
                    0 => 1,
                    1 => 2,
                    _ => 0,
                };
                if kind == 0 && cons.is_empty() {
                    continue;
                }
                let tag = if kind == 0 { self.rng.pick(&cons).clone() } else { String::new() };
                let len = self.body_len();
                let mut fs = self.content(ch, kind, &tag, len, dtag);
                dtag += 1;
                // harmless non-content frames of the same channel between messages
                if self.rng.chance(1, 4) {
                    fs.push(FR::Method(ch, SM::Ack(dtag, false)));
                }
                msgs.push(fs);
            }
            per_chan.push(msgs);
        }
        // interleave at frame granularity
        let mut cursors: Vec<(usize, usize)> = vec![(0, 0); per_chan.len()];
        let mut episode: Vec<FR> = Vec::new();
        loop {
            let live: Vec<usize> = (0..per_chan.len()).filter(|&i| cursors[i].0 < per_chan[i].len()).collect();
            if live.is_empty() {
                break;
            }
            let i = *self.rng.pick(&live);
            let (mi, fi) = cursors[i];
            let f = per_chan[i][mi][fi].clone();
            let is_get = matches!(per_chan[i][mi][0], FR::Method(_, SM::GetOk { .. }));
            episode.push(f);
            let mut barrier = false;
            if fi + 1 == per_chan[i][mi].len() {
                cursors[i] = (mi + 1, 0);
                barrier = is_get;
            } else {
                cursors[i] = (mi, fi + 1);
            }
            if self.rng.chance(1, 6) {
                episode.push(FR::Heartbeat(0));
            }
            if barrier || self.rng.chance(1, 5) {
                let ep = std::mem::take(&mut episode);
                self.feed(ep, Term::Block);
                if barrier {
                    if let Some(q) = self.w.handle_q.get(&ids[i]).cloned() {
                        self.w.cl_recv(q);
                    }
                }
                if self.rng.chance(1, 4) {
                    self.recv_some();
                }
            }
            if self.w.errored || self.w.dead {
                return;
            }
        }
        if !episode.is_empty() {
            self.feed(episode, Term::Block);
        }
    }
}

pub fn one_case(mode: &str, subseed: u64) -> G {
    let mut g = G::new(mode, subseed);
    g.run_mode();
    g
}

/// what a case leaves behind, as plain data (the probe itself stays on the thread that ran it)
pub struct CaseData {
    pub stats: Vec<String>,
    pub ops: Vec<String>,
    pub obs: Vec<String>,
    pub term: String,
}

pub fn case_data(mode: &str, subseed: u64) -> CaseData {
    let g = one_case(mode, subseed);
    let w = &g.w;
    CaseData { stats: w.stats.clone(), ops: w.ops.clone(), obs: w.obs.clone(), term: w.case_term() }
}

pub fn emit_data(sink: &mut CaseSink, mode: &str, subseed: u64, d: &CaseData) {
    sink.count(&format!("mode:{}", mode));
    for st in &d.stats {
        sink.count(st);
    }
    sink.count(&format!("ops:{}", match d.ops.len() { 0..=5 => "<=5", 6..=15 => "6-15", 16..=40 => "16-40", _ => ">40" }));
    let mut kinds = std::collections::BTreeSet::new();
    for o in &d.ops {
        let k: String = o.split(|c: char| c == ' ' || c == '(').filter(|x| !x.is_empty()).take(2).collect::<Vec<_>>().join("_");
        kinds.insert(k);
    }
    for k in kinds {
        sink.count(&format!("op:{}", k));
    }
    let recvd = d.obs.iter().filter(|o| o.starts_with("(BRecv (RItem")).count();
    sink.count_n("items_received", recvd as u64);
    let nontrivial = d.ops.len() >= 4 && recvd >= 1;
    sink.push_line(d.term.clone(), nontrivial, format!("{} {}", mode, subseed));
}

pub fn emit(sink: &mut CaseSink, mode: &str, subseed: u64) {
    let d = case_data(mode, subseed);
    emit_data(sink, mode, subseed, &d);
}

pub fn run(a: &Args, prop: &str, check_mod: &str, modes: &[&str]) {
    let mut sink = CaseSink::new(prop, check_mod, &a.out, 40);
    let mut rng = Rng::new(a.seed ^ 0xC0DE);
    if let Some(dir) = &a.corpus {
        if let Ok(rd) = std::fs::read_dir(dir) {
            let mut files: Vec<_> = rd.flatten().map(|e| e.path()).collect();
            files.sort();
            for f in files {
                for line in std::fs::read_to_string(&f).unwrap_or_default().lines() {
                    let line = line.split('#').next().unwrap().trim();
                    let mut it = line.split_whitespace();
                    if let (Some(m), Some(sd)) = (it.next(), it.next()) {
                        if let Ok(sd) = sd.parse::<u64>() {
                            emit(&mut sink, m, sd);
                        }
                    }
                }
            }
        }
    }
    if let Some(pos) = a.rest.iter().position(|x| x == "--line") {
        let line = a.rest[pos + 1].clone();
        let mut it = line.split_whitespace();
        if let (Some(m), Some(sd)) = (it.next(), it.next()) {
            emit(&mut sink, m, sd.parse().unwrap());
        }
        sink.finish("");
        return;
    }
    // the cases are independent (each has its own probe): a few at a time, emitted in order
    let todo: Vec<(String, u64)> = (0..a.n).map(|i| (modes[(i % modes.len() as u64) as usize].to_string(), rng.next())).collect();
    for chunk in todo.chunks(8) {
        if crate::l2::timeouts() >= crate::l2::ENOUGH_TIMEOUTS {
            sink.count("stopped-early-after-timeouts");
            break;
        }
        // each case under a watchdog: an event handler that never returns is a hang, reported with
        // the case's replay line (the thread is abandoned, the driver goes on)
        let rxs: Vec<_> = chunk
            .iter()
            .cloned()
            .map(|(m, sd)| {
                let (tx, rx) = std::sync::mpsc::channel();
                let (m2, sd2) = (m.clone(), sd);
                std::thread::Builder::new().stack_size(64 << 20).spawn(move || { let d = case_data(&m2, sd2); let _ = tx.send(d); }).unwrap();
                (m, sd, rx)
            })
            .collect();
        for (m, sd, rx) in rxs {
            let line = format!("{} {}", m, sd);
            match crate::l2::watchdog(line, 120, move || rx.recv().ok()) {
                Some(d) => emit_data(&mut sink, &m, sd, &d),
                None => sink.count("case-did-not-finish"),
            }
        }
    }
    sink.finish("");
}
