//! C15 "and then obeyed", end to end: the negotiated channel_max is what open_channel obeys.
use crate::coqfmt::{self, CaseSink};
use crate::l2::*;
use crate::rng::Rng;
use crate::Args;
use amiquip::{Auth, Connection, ConnectionOptions, ConnectionTuning, Error};
use std::time::Duration;

fn open(c_cm: u16, s_cm: u16) -> Option<(Connection, Broker)> {
    let (stream, peer) = mock_pair();
    let broker = Broker::start(peer.clone(), BrokerCfg { tune: (s_cm, 131072, 0), ..BrokerCfg::default() });
    let opts = ConnectionOptions::<Auth>::default().channel_max(c_cm).heartbeat(0);
    let conn = with_deadline(move || Connection::insecure_open_stream(stream, opts, ConnectionTuning::default()), Duration::from_secs(5))?.ok()?;
    Some((conn, broker))
}

pub fn scenario(c_cm: u16, s_cm: u16, tries: u64) -> Option<String> {
    let lim: u32 = match (c_cm, s_cm) {
        (0, 0) => 65535,
        (0, s) => s as u32,
        (c, 0) => c as u32,
        (c, s) => c.min(s) as u32,
    };
    // 1. open channels until refused
    let (mut conn, broker) = open(c_cm, s_cm)?;
    let mut opened = 0u64;
    let mut err = 0u64;
    let mut keep = Vec::new();
    for _ in 0..tries {
        match conn.open_channel(None) {
            Ok(ch) => {
                opened += 1;
                keep.push(ch);
            }
            Err(Error::ExhaustedChannelIds) => {
                err = 1;
                break;
            }
            Err(_) => {
                err = 9;
                break;
            }
        }
    }
    for ch in keep {
        std::mem::forget(ch);
    }
    std::mem::forget(conn);
    let _ = broker.stop();
    // 2. explicit ids at and above the maximum, on a fresh connection
    let (mut conn, broker) = open(c_cm, s_cm)?;
    let at_max = match conn.open_channel(Some(lim as u16)) {
        Ok(ch) => {
            std::mem::forget(ch);
            true
        }
        Err(_) => false,
    };
    let above = if lim < 65535 { matches!(conn.open_channel(Some(lim as u16 + 1)), Err(Error::UnavailableChannelId { .. })) } else { false };
    std::mem::forget(conn);
    let _ = broker.stop();
    Some(format!("({}, {}, {}, {}, {}, {}, {})", c_cm, s_cm, tries, opened, err, coqfmt::b(at_max), coqfmt::b(above)))
}

pub fn run(a: &Args) {
    let mut sink = CaseSink::new("C15", "C15l2", &a.out, 64);
    let mut rng = Rng::new(a.seed ^ 0xC15_2);
    let vals = [0u16, 1, 2, 3, 7, 2047, 65535];
    let mut todo: Vec<(u16, u16, u64)> = Vec::new();
    if let Some(pos) = a.rest.iter().position(|x| x == "--line") {
        let v: Vec<u64> = a.rest[pos + 1].split_whitespace().skip(1).filter_map(|x| x.parse().ok()).collect();
        todo.push((v[0] as u16, v[1] as u16, v[2]));
    } else {
        // every pair from the boundary set first (as many as the tier allows), then random ones
        let mut pairs: Vec<(u16, u16)> = Vec::new();
        for &c in &vals {
            for &s in &vals {
                pairs.push((c, s));
            }
        }
        rng.shuffle(&mut pairs);
        for (c, s) in pairs.into_iter().take(a.n as usize) {
            todo.push((c, s, 10));
        }
        for _ in todo.len() as u64..a.n {
            todo.push((rng.range(0, 12) as u16, rng.range(0, 12) as u16, rng.range(1, 14)));
        }
    }
    for chunk in todo.chunks(8) {
        if crate::l2::timeouts() >= crate::l2::ENOUGH_TIMEOUTS {
            sink.count("stopped-early-after-timeouts");
            break;
        }
        let hs: Vec<_> = chunk.iter().map(|&(c, s, t)| std::thread::spawn(move || ((c, s, t), crate::l2::watchdog(format!("l2 {} {} {}", c, s, t), 150, move || scenario(c, s, t))))).collect();
        for h in hs {
            match h.join() {
                Ok(((c, s, t), Some(term))) => {
                    sink.count("scenario");
                    sink.push_line(term, true, format!("l2 {} {} {}", c, s, t));
                }
                _ => sink.count("setup_failed"),
            }
        }
    }
    sink.finish("");
}
