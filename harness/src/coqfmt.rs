//! Printing values as Coq terms (scope N_scope is open in case files).
use std::collections::hash_map::DefaultHasher;
use std::collections::{BTreeMap, HashSet};
use std::fmt::Write as _;
use std::hash::{Hash, Hasher};
use std::io::Write as _;
use std::path::{Path, PathBuf};

pub fn b(x: bool) -> &'static str {
    if x {
        "true"
    } else {
        "false"
    }
}
pub fn list<T, F: Fn(&T) -> String>(xs: &[T], f: F) -> String {
    // Coq's list notation parses very long literals in super-linear time: long lists are
    // written as an append of pieces
    if xs.len() > 256 {
        let parts: Vec<String> = xs.chunks(128).map(|c| short_list(c, &f)).collect();
        return format!("({})", parts.join(" ++ "));
    }
    short_list(xs, &f)
}
fn short_list<T>(xs: &[T], f: &dyn Fn(&T) -> String) -> String {
    let mut s = String::from("[");
    for (i, x) in xs.iter().enumerate() {
        if i > 0 {
            s.push_str("; ");
        }
        s.push_str(&f(x));
    }
    s.push(']');
    s
}
pub fn opt<T, F: Fn(&T) -> String>(x: &Option<T>, f: F) -> String {
    match x {
        None => "None".to_string(),
        Some(v) => format!("(Some {})", f(v)),
    }
}
pub fn bytes(xs: &[u8]) -> String {
    list(xs, |x| x.to_string())
}
/// bytes with runs of >= 12 equal bytes printed as `rep n b` (see Check modules)
pub fn bytes_rle(xs: &[u8]) -> String {
    let mut parts: Vec<String> = Vec::new();
    let mut lit: Vec<u8> = Vec::new();
    let mut i = 0;
    while i < xs.len() {
        let mut j = i;
        while j < xs.len() && xs[j] == xs[i] {
            j += 1;
        }
        if j - i >= 12 {
            if !lit.is_empty() {
                parts.push(bytes(&lit));
                lit.clear();
            }
            parts.push(format!("rep {} {}", j - i, xs[i]));
        } else {
            lit.extend_from_slice(&xs[i..j]);
        }
        i = j;
    }
    if !lit.is_empty() || parts.is_empty() {
        parts.push(bytes(&lit));
    }
    if parts.len() == 1 {
        parts.pop().unwrap()
    } else {
        format!("({})", parts.join(" ++ "))
    }
}
pub fn string(s: &str) -> String {
    bytes(s.as_bytes())
}

fn hash_str(s: &str) -> u64 {
    let mut h = DefaultHasher::new();
    s.hash(&mut h);
    h.finish()
}

/// Collects cases (already rendered as Coq terms), shards them into .v files and
/// records what was generated.
pub struct CaseSink {
    pub prop: String,
    pub check_mod: String,
    pub dir: PathBuf,
    pub shard_size: usize,
    cur: Vec<String>,
    cur_lines: Vec<String>,
    shard_no: usize,
    pub total: u64,
    seen: HashSet<u64>,
    pub distinct_nontrivial: u64,
    pub dist: BTreeMap<String, u64>,
    pub samples: Vec<String>,
    /// human-readable replay text per case index (kept only for small runs / on demand)
    pub index: Vec<(usize, usize)>,
    /// definitions written at the top of every shard, before the cases
    pub prelude: String,
}

impl CaseSink {
    pub fn new(prop: &str, check_mod: &str, dir: &Path, shard_size: usize) -> CaseSink {
        std::fs::create_dir_all(dir).unwrap();
        // remove stale shards
        if let Ok(rd) = std::fs::read_dir(dir) {
            for e in rd.flatten() {
                let n = e.file_name().to_string_lossy().to_string();
                if n.starts_with("shard_") {
                    let _ = std::fs::remove_file(e.path());
                }
            }
        }
        CaseSink {
            prop: prop.to_string(),
            check_mod: check_mod.to_string(),
            dir: dir.to_path_buf(),
            shard_size,
            cur: Vec::new(),
            cur_lines: Vec::new(),
            shard_no: 0,
            total: 0,
            seen: HashSet::new(),
            distinct_nontrivial: 0,
            dist: BTreeMap::new(),
            samples: Vec::new(),
            index: Vec::new(),
            prelude: String::new(),
        }
    }
    pub fn count(&mut self, key: &str) {
        *self.dist.entry(key.to_string()).or_insert(0) += 1;
    }
    pub fn count_n(&mut self, key: &str, n: u64) {
        *self.dist.entry(key.to_string()).or_insert(0) += n;
    }
    /// `term` is the Coq term of the case; `nontrivial` per the property's rule.
    pub fn push(&mut self, term: String, nontrivial: bool) {
        self.push_line(term, nontrivial, String::new())
    }
    /// `line` is the driver-specific one-line text from which `--line` replays the case.
    pub fn push_line(&mut self, term: String, nontrivial: bool, line: String) {
        self.cur_lines.push(line.replace('\n', " "));
        if nontrivial && self.seen.insert(hash_str(&term)) {
            self.distinct_nontrivial += 1;
        }
        if self.samples.len() < 3 || (self.total % 997 == 0 && self.samples.len() < 8) {
            let mut t = term.clone();
            if t.len() > 600 {
                t.truncate(600);
                t.push_str("...");
            }
            self.samples.push(t);
        }
        self.total += 1;
        self.cur.push(term);
        if self.cur.len() >= self.shard_size {
            self.flush();
        }
    }
    pub fn flush(&mut self) {
        if self.cur.is_empty() {
            return;
        }
        let path = self.dir.join(format!("shard_{:04}.v", self.shard_no));
        let mut f = std::io::BufWriter::new(std::fs::File::create(&path).unwrap());
        writeln!(f, "From Amq Require Import Lib.Base Check.{}.", self.check_mod).unwrap();
        writeln!(f, "Open Scope N_scope.").unwrap();
        if !self.prelude.is_empty() {
            writeln!(f, "{}", self.prelude).unwrap();
        }
        writeln!(f, "Definition cases : list case := [").unwrap();
        for (i, c) in self.cur.iter().enumerate() {
            if i > 0 {
                writeln!(f, ";").unwrap();
            }
            write!(f, "{}", c).unwrap();
        }
        writeln!(f, "\n].").unwrap();
        writeln!(f, "Definition bm := Eval vm_compute in bad_model cases.").unwrap();
        writeln!(f, "Definition bo := Eval vm_compute in bad_oracle cases.").unwrap();
        writeln!(f, "Eval vm_compute in (N.of_nat (length cases), bm, bo).").unwrap();
        drop(f);
        std::fs::write(
            self.dir.join(format!("shard_{:04}.txt", self.shard_no)),
            self.cur_lines.join("\n") + "\n",
        )
        .unwrap();
        self.shard_no += 1;
        self.cur.clear();
        self.cur_lines.clear();
    }
    pub fn finish(mut self, extra: &str) {
        self.finish_mut(extra)
    }
    pub fn finish_mut(&mut self, extra: &str) {
        self.flush();
        let mut s = String::new();
        write!(
            s,
            "{{\"property\":\"{}\",\"evaluations\":{},\"distinct_nontrivial\":{},\"shards\":{},\"distribution\":{{",
            self.prop, self.total, self.distinct_nontrivial, self.shard_no
        )
        .unwrap();
        for (i, (k, v)) in self.dist.iter().enumerate() {
            if i > 0 {
                s.push(',');
            }
            write!(s, "{}:{}", json_str(k), v).unwrap();
        }
        s.push_str("},\"samples\":[");
        for (i, x) in self.samples.iter().enumerate() {
            if i > 0 {
                s.push(',');
            }
            s.push_str(&json_str(x));
        }
        s.push(']');
        let hangs = crate::l2::hangs();
        if !extra.is_empty() {
            s.push(',');
            s.push_str(extra);
        } else if !hangs.is_empty() {
            s.push_str(",\"direct_violations\":[");
            for (i, l) in hangs.iter().enumerate() {
                if i > 0 {
                    s.push(',');
                }
                s.push_str(&format!("{{\"id\":\"hang\",\"what\":\"the scenario did not finish within its time limit: a call of the client never returned\",\"line\":{}}}", json_str(l)));
            }
            s.push(']');
        }
        s.push('}');
        std::fs::write(self.dir.join("stats.json"), s).unwrap();
    }
}

pub fn json_str(s: &str) -> String {
    let mut o = String::from("\"");
    for c in s.chars() {
        match c {
            '"' => o.push_str("\\\""),
            '\\' => o.push_str("\\\\"),
            '\n' => o.push_str("\\n"),
            '\r' => o.push_str("\\r"),
            '\t' => o.push_str("\\t"),
            c if (c as u32) < 0x20 => {
                write!(o, "\\u{:04x}", c as u32).unwrap();
            }
            c => o.push(c),
        }
    }
    o.push('"');
    o
}
